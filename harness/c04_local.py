"""C04, family `local_clients`: concurrent in-process clients.

Client objects created without an endpoint share one process-wide service
(vizier_client._create_local_vizier_servicer). Here every concurrent call is
made the way a user thread makes it - a new thread builds its own
`VizierClient(study, worker)` / calls `create_or_load_study` and invokes one
client method - on a file-backed SQLite database, under the cooperative
scheduler of harness/sched.py. Every VizierServicer constructed while a
schedule runs is instrumented (datastore calls and service locks become
scheduling points), whichever way the client library obtains it.

Oracle: per-call result class (+ trials handed out by suggest) and the final
studies/trials, read by a fresh client thread, equal those of one of the k!
serial orders of the same calls, up to a renaming of trial ids created during
the run. Suggested parameters come from RANDOM_SEARCH and are not compared.
"""
import itertools
import json
import os
import threading

from harness import core
from harness import sched

OWNER = 'o0'
_STATE = {'sched': None, 'created': [], 'patched': False, 'n': 0}


def _patch_servicer_class():
  if _STATE['patched']:
    return
  from vizier._src.service import vizier_service
  orig = vizier_service.VizierServicer.__init__

  def init(self, *a, **k):
    orig(self, *a, **k)
    _STATE['created'].append(self)
    if _STATE['sched'] is not None:
      sched.instrument(self, _STATE['sched'])
  vizier_service.VizierServicer.__init__ = init
  _STATE['patched'] = True


def _reset_client_library(dbpath):
  """Points the endpoint-less client library at a fresh database."""
  import importlib
  from vizier._src.service import vizier_client, constants
  f = getattr(vizier_client, '_create_local_vizier_servicer', None)
  if hasattr(f, 'cache_clear'):
    f.cache_clear()
  else:  # no way to reset the cache: start the module over
    importlib.reload(vizier_client)
  ev = vizier_client.environment_variables
  ev.server_endpoint = constants.NO_ENDPOINT
  ev.servicer_kwargs = {'database_url': 'sqlite:///' + dbpath}
  return vizier_client


def _in_thread(fn):
  """Runs fn in a fresh (unscheduled) thread; returns ('ok', v) / ('exc', e)."""
  box = {}

  def run():
    try:
      box['r'] = ('ok', fn())
    except BaseException as e:  # pylint: disable=broad-except
      box['r'] = ('exc', e)
  t = threading.Thread(target=run)
  t.start()
  t.join()
  return box['r']


def _config():
  from vizier.service import pyvizier as svz
  from vizier import pyvizier as vz
  sc = svz.StudyConfig(algorithm='RANDOM_SEARCH')
  sc.search_space.root.add_float_param('x', 0.0, 1.0)
  sc.metric_information.append(vz.MetricInformation(
      'm', goal=vz.ObjectiveMetricGoal.MAXIMIZE))
  return sc


def _study_name(sid):
  return 'owners/%s/studies/%s' % (OWNER, sid)


def _do(vc, op):
  """One client-level call, executed by the calling thread."""
  from vizier.service import pyvizier as vz
  kind = op[0]
  if kind == 'create_or_load':
    c = vc.create_or_load_study(OWNER, op[2], op[1], _config())
    return c.study_resource_name
  client = vc.VizierClient(_study_name(op[1]), op[2])
  if kind == 'suggest':
    return [_trial_d(t) for t in client.get_suggestions(op[3])]
  if kind == 'meas':
    client.report_intermediate_objective_value(op[4], 0.0, [{'m': op[5]}],
                                               op[3])
    return None
  if kind == 'complete':
    client.complete_trial(op[3], vz.Measurement(metrics={'m': op[4]}))
    return None
  if kind == 'complete_auto':
    client.complete_trial(op[3])
    return None
  if kind == 'stop':
    client.stop_trial(op[3])
    return None
  if kind == 'delete_trial':
    client.delete_trial(op[3])
    return None
  if kind == 'add_trial':
    t = client.add_trial(vz.Trial(parameters={'x': op[3]}))
    return [_trial_d(t)]
  if kind == 'update_md':
    delta = vz.MetadataDelta()
    delta.on_study[op[3]] = op[4]
    delta.on_trials[op[5]][op[3]] = op[4]
    client.update_metadata(delta)
    return None
  if kind == 'set_state':
    client.set_study_state(getattr(vz.StudyState, op[3]))
    return None
  raise ValueError(op)


def _trial_d(t):
  return {'id': int(t.id), 'state': str(t.status.name),
          'client': t.assigned_worker or '',
          'final': (sorted((k, v.value) for k, v in
                           t.final_measurement.metrics.items())
                    if t.final_measurement is not None else None),
          'meas': [sorted((k, v.value) for k, v in m.metrics.items()) + [
              ['step', m.steps]] for m in t.measurements],
          'md': sorted((ns_key, str(val)) for ns_key, val in _md_items(
              t.metadata))}


def _md_items(md):
  out = []
  for ns in md.namespaces():
    for k, v in md.abs_ns(ns).items():
      out.append(('%s/%s' % (ns.encode(), k), v))
  return out


def _snapshot(vc):
  snap = {'studies': []}
  probe = vc.VizierClient(_study_name('s0'), 'reader')
  names = sorted(json.loads(d)['name'] if isinstance(d, str) else d['name']
                 for d in probe.list_studies())
  for name in names:
    c = vc.VizierClient(name, 'reader')
    cfg = c.get_study_config()
    snap['studies'].append({
        'study': {'name': name, 'state': str(c.get_study_state().name),
                  'md': sorted(_md_items(cfg.metadata))},
        'trials': [_trial_d(t) for t in c.list_trials()]})
  return snap


def _canon(res):
  kind, val = res
  if kind == 'exc':
    return ['err', type(val).__name__]
  return ['ok', val]


PREFIX = [['create_or_load', 's0', 'w1'], ['suggest', 's0', 'w1', 2],
          ['meas', 's0', 'w1', 1, 1, 1.0]]


def _fresh(tmp):
  _patch_servicer_class()
  _STATE['n'] += 1
  _STATE['created'] = []
  _STATE['sched'] = None
  dbpath = tmp.path('local%d.db' % _STATE['n'])
  vc = _reset_client_library(dbpath)
  for op in PREFIX:
    r = _in_thread(lambda op=op: _do(vc, op))
    if r[0] == 'exc':
      raise r[1]
  return vc, dbpath


def _close(dbpath):
  from harness import svc
  for s in _STATE['created']:
    svc.close_servicer(s)
  _STATE['created'] = []
  _STATE['sched'] = None
  for suffix in ('', '-journal', '-wal', '-shm'):
    try:
      os.unlink(dbpath + suffix)
    except OSError:
      pass


def _serial(case, tmp):
  outs = []
  base = None
  for order in itertools.permutations(range(len(case['calls']))):
    vc, dbpath = _fresh(tmp)
    try:
      if base is None:
        base = _ids(_in_thread(lambda: _snapshot(vc))[1])
      res = [None] * len(case['calls'])
      for i in order:
        res[i] = _canon(_in_thread(lambda i=i: _do(vc, case['calls'][i])))
      snap = _in_thread(lambda: _snapshot(vc))
      if snap[0] == 'exc':
        raise snap[1]
      outs.append({'calls': res, 'snap': snap[1]})
    finally:
      _close(dbpath)
  return outs, base


def _ids(snap):
  from props import c04
  return c04._ids(snap, set())  # pylint: disable=protected-access


def _scheduled(case, tmp, policy):
  vc, dbpath = _fresh(tmp)
  try:
    sch = sched.Sched(policy, max_steps=3000)
    for s in _STATE['created']:
      sched.instrument(s, sch)
    _STATE['sched'] = sch
    recs = [sch.spawn((lambda op=op: _do(vc, op)), 't%d' % i)
            for i, op in enumerate(case['calls'])]
    try:
      sch.run()
    except sched.Deadlock as e:
      return {'status': 'deadlock', 'detail': str(e), 'trace': sch.trace}
    except sched.Livelock as e:
      return {'status': 'livelock', 'detail': str(e), 'trace': sch.trace}
    _STATE['sched'] = None
    n_servicers = len(_STATE['created'])
    res = [_canon(r['result']) for r in recs]
    snap = _in_thread(lambda: _snapshot(vc))
    if snap[0] == 'exc':
      return {'status': 'unreadable', 'detail': repr(snap[1]),
              'trace': sch.trace}
    return {'status': 'ok', 'calls': res, 'snap': snap[1],
            'trace': sch.trace, 'servicers': n_servicers}
  finally:
    _close(dbpath)


def strategy():
  from hypothesis import strategies as st
  w = st.sampled_from(['w1', 'w2'])
  tid = st.sampled_from([1, 1, 2])
  val = st.sampled_from([2.0, 3.5])
  call = st.one_of(
      st.tuples(st.just('meas'), st.just('s0'), w, tid, st.sampled_from(
          [2, 3]), val),
      st.tuples(st.just('meas'), st.just('s0'), w, tid, st.sampled_from(
          [2, 3]), val),
      st.tuples(st.just('complete'), st.just('s0'), w, tid, val),
      st.tuples(st.just('complete_auto'), st.just('s0'), w, tid),
      st.tuples(st.just('suggest'), st.just('s0'), w, st.integers(1, 3)),
      st.tuples(st.just('suggest'), st.just('s0'), w, st.integers(1, 3)),
      st.tuples(st.just('stop'), st.just('s0'), w, tid),
      st.tuples(st.just('delete_trial'), st.just('s0'), w, tid),
      st.tuples(st.just('add_trial'), st.just('s0'), w, st.sampled_from(
          [0.25, 0.75])),
      st.tuples(st.just('update_md'), st.just('s0'), w, st.sampled_from(
          ['k', 'j']), st.sampled_from(['v', 'w']), tid),
      st.tuples(st.just('set_state'), st.just('s0'), w, st.sampled_from(
          ['INACTIVE', 'ACTIVE'])),
      st.tuples(st.just('create_or_load'), st.sampled_from(['s0', 's1', 's1']),
                w),
  ).map(list)
  return st.fixed_dictionaries({
      'calls': st.lists(call, min_size=2, max_size=2),
      'random_schedules': st.lists(
          st.lists(st.integers(0, 1), min_size=4, max_size=30),
          min_size=2, max_size=4),
  })


def check(case, cap=40):
  from harness import svc
  from props import c04
  out = core.Out()
  tmp = svc.TmpFiles()
  try:
    calls = case['calls']
    kinds = '+'.join(sorted(c[0] for c in calls))
    serial, base = _serial(case, tmp)
    serial_keys = [json.dumps([so['calls'], so['snap']], sort_keys=True)
                   for so in serial]
    serial_classes = [set() for _ in calls]
    for so in serial:
      for i, r in enumerate(so['calls']):
        serial_classes[i].add(r[1] if r[0] == 'err' else 'ok')
    names = ['t%d' % i for i in range(len(calls))]
    probe = _scheduled(case, tmp, sched.policy_bounded(names, {}))
    out.count('schedules_run')
    steps = len(probe.get('trace', [])) or 10
    policies = c04._bounded_policies(names, min(steps, 40), cap)  # pylint: disable=protected-access
    for ch in case['random_schedules']:
      policies.append(('rnd', ch, None, sched.policy_from_choices(ch)))
    any_rmw = False
    nt_keys = set()
    seen = set()
    for kind, a, b, pol in policies:
      res = _scheduled(case, tmp, pol)
      out.count('schedules_run')
      desc = {'kind': kind, 'order_or_choices': a, 'preempts': b}
      if res['status'] != 'ok':
        out.violate('local/%s/%s' % (res['status'], kinds),
                    'schedule=%r: %s' % (desc, res['detail'][:300]))
        continue
      if c04._rmw_preempted(res['trace']):  # pylint: disable=protected-access
        any_rmw = True
        nt_keys.add(core.case_hash([case['calls'],
                                    [t for t, _ in res['trace']]]))
      key = json.dumps([res['calls'], res['snap']], sort_keys=True)
      if key in seen:
        continue
      seen.add(key)
      for sd in res['snap']['studies']:
        ids = [t['id'] for t in sd['trials']]
        if len(ids) != len(set(ids)):
          out.violate('local/duplicate_trial_id/%s' % kinds,
                      'schedule=%r ids=%r' % (desc, ids))
      names_ = [sd['study']['name'] for sd in res['snap']['studies']]
      if len(names_) != len(set(names_)):
        out.violate('local/duplicate_study/%s' % kinds,
                    'schedule=%r studies=%r' % (desc, names_))
      for i, r in enumerate(res['calls']):
        cls = r[1] if r[0] == 'err' else 'ok'
        if cls not in serial_classes[i]:
          out.violate('local/result_class_only_from_interleaving/%s/%s:%s' % (
              kinds, calls[i][0], cls),
                      'schedule=%r call %r got %s; serial orders give %s' % (
                          desc, calls[i], cls, sorted(serial_classes[i])))
      if key in serial_keys:
        continue
      c_obj = [res['calls'], res['snap']]
      if any(c04._equivalent(c_obj, [so['calls'], so['snap']], base or set())  # pylint: disable=protected-access
             for so in serial):
        continue
      out.violate('local/not_serializable/%s' % kinds,
                  'schedule=%r calls=%r -> results=%s trials=%s servicers '
                  'constructed=%s; no serial order gives this (serial '
                  'results: %s)' % (
                      desc, calls, json.dumps(res['calls'])[:300],
                      json.dumps([[(t['id'], t['state'], t['client'],
                                    len(t['meas'])) for t in sd['trials']]
                                  for sd in res['snap']['studies']])[:300],
                      res.get('servicers'),
                      json.dumps([so['calls'] for so in serial])[:300]))
    out.nontrivial = any_rmw
    out.nt_keys = nt_keys
    out.cls('local_clients')
    if any_rmw:
      out.cls('preempted_read_modify_write')
    for c in calls:
      out.cls('lkind_' + c[0])
  finally:
    tmp.close()
  return out


def check_thorough(case):
  return check(case, cap=150)
