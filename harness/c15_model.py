"""Reference model for C15 (numeric encoding of trials).

Nothing here calls vizier's converters.  It provides
  * the *expected layout* of a parameter's feature block, from the documented
    rules (DOUBLE -> one continuous column; INTEGER/DISCRETE with more than
    `max_discrete_indices` feasible values are continuified; everything else is
    an integer index into the sorted feasible values, or a one-hot block of
    n (+1 when pad_oovs) columns);
  * the reference unit-interval scaling of LINEAR / LOG / REVERSE_LOG computed
    with 50-digit decimals from the float64 bounds
        LINEAR       f(x) = (x-lo)/(hi-lo)
        LOG          f(x) = (ln x - ln lo)/(ln hi - ln lo)
        REVERSE_LOG  f(x) = 1 - (ln(lo+hi-x) - ln lo)/(ln hi - ln lo)
    (the only maps that are affine in x / ln x / ln of the mirrored x and send
    lo->0, hi->1; the midpoint identities of DESIGN C15 are special cases);
  * condition-aware floating point tolerances for the feature dtype.
"""
import decimal
import math

import numpy as np

D = decimal.Decimal
CTX = decimal.Context(prec=50)
K = 8.0  # ulp budget of the reference comparisons


def feasible_of(p):
  """Sorted feasible values of a non-DOUBLE param spec (vizier sorts them)."""
  k = p['kind']
  if k == 'INTEGER':
    return list(range(p['lo'], p['hi'] + 1))
  if k == 'DISCRETE':
    return sorted(float(v) for v in p['values'])
  if k == 'CATEGORICAL':
    return sorted(p['values'])
  if k == 'BOOL':
    return ['False', 'True']
  raise ValueError(k)


def num_feasible(p):
  if p['kind'] == 'INTEGER':
    return p['hi'] - p['lo'] + 1
  return len(feasible_of(p))


def bounds_of(p):
  if p['kind'] in ('DOUBLE', 'INTEGER'):
    return float(p['lo']), float(p['hi'])
  vals = feasible_of(p)
  return float(vals[0]), float(vals[-1])


def layout(p, opts):
  """-> dict(type='CONTINUOUS'|'INDEX'|'ONEHOT', width, n, continuified)."""
  k = p['kind']
  if k == 'DOUBLE':
    return {'type': 'CONTINUOUS', 'width': 1, 'n': None, 'continuified': False}
  n = num_feasible(p)
  mdi = opts['mdi']
  if k in ('INTEGER', 'DISCRETE') and (mdi != 'inf' and n > mdi):
    return {'type': 'CONTINUOUS', 'width': 1, 'n': n, 'continuified': True}
  if opts['onehot']:
    return {'type': 'ONEHOT', 'width': n + (1 if opts['pad_oovs'] else 0),
            'n': n, 'continuified': False}
  return {'type': 'INDEX', 'width': 1, 'n': n, 'continuified': False}


def scale_of(p):
  s = p.get('scale')
  return 'LINEAR' if s in (None, 'LINEAR') else s


def _ln(x):
  return CTX.ln(x)


def ref_feature(p, x):
  """Reference scaled feature of value x (python number) -> float, or None
  when the range is degenerate (documented output bounds (0.5, 0.5))."""
  lo, hi = bounds_of(p)
  if lo == hi:
    return 0.5
  lo_, hi_, x_ = D(lo), D(hi), D(float(x))
  s = scale_of(p)
  if s == 'LINEAR':
    return float(CTX.divide(CTX.subtract(x_, lo_), CTX.subtract(hi_, lo_)))
  den = CTX.subtract(_ln(hi_), _ln(lo_))
  if s == 'LOG':
    return float(CTX.divide(CTX.subtract(_ln(x_), _ln(lo_)), den))
  u = CTX.subtract(CTX.add(lo_, hi_), x_)
  return float(CTX.subtract(D(1), CTX.divide(CTX.subtract(_ln(u), _ln(lo_)),
                                             den)))


def ref_value(p, f):
  """Reference inverse (float64 / python math; inf on overflow)."""
  lo, hi = bounds_of(p)
  if lo == hi:
    return f + lo - 0.5
  s = scale_of(p)
  try:
    if s == 'LINEAR':
      return f * (hi - lo) + lo
    den = math.log(hi) - math.log(lo)
    if s == 'LOG':
      return math.exp(f * den + math.log(lo))
    return (lo + hi) - math.exp(math.log(hi) - den * f)
  except OverflowError:
    if s == 'REVERSE_LOG':
      return -math.inf
    return math.inf if f > 0 else -math.inf


def unscale_overflows(p, f, dtype, scaled):
  """Does the documented inverse leave the finite range of `dtype` at f?"""
  if not scaled:
    return False
  fmax = float(np.finfo(dtype).max)
  lo, hi = bounds_of(p)
  s = scale_of(p)
  if lo == hi:
    return False
  try:
    if s == 'LINEAR':
      parts = [f * (hi - lo), f * (hi - lo) + lo]
    else:
      den = math.log(hi) - math.log(lo)
      e = f * den + math.log(lo) if s == 'LOG' else math.log(hi) - den * f
      parts = [f * den, e, math.exp(e) if e < 20000 else math.inf]
  except OverflowError:
    return True
  return any((not math.isfinite(v)) or abs(v) > 0.99 * fmax for v in parts)


def eps_of(dtype):
  return float(np.finfo(dtype).eps)


def tiny_of(dtype):
  """Smallest normal number: absolute slack for underflow to subnormals."""
  return float(np.finfo(dtype).tiny)


def tol_feature(p, x, dtype):
  """|feature - reference| allowed at value x (casts of x, lo, hi included)."""
  eps = eps_of(dtype)
  lo, hi = bounds_of(p)
  if lo == hi:
    return K * eps * (1.0 + abs(lo))
  s = scale_of(p)
  m = max(abs(lo), abs(hi))
  if s == 'LINEAR':
    return K * eps * (1.0 + m / (hi - lo))
  den = math.log(hi) - math.log(lo)
  ll = abs(math.log(lo)) + abs(math.log(hi))
  if s == 'LOG':
    return K * eps * (1.0 + (2.0 + ll) / den)
  u = max((lo + hi) - float(x), lo)
  return K * eps * (1.0 + (2.0 + ll + 2.0 * (lo + hi) / u) / den)


def tol_unit(p, dtype):
  """Slack of the unit-interval claim (log rounding; REVERSE_LOG: lo+hi)."""
  eps = eps_of(dtype)
  lo, hi = bounds_of(p)
  s = scale_of(p)
  if lo == hi or s == 'LINEAR':
    return 4 * eps
  den = math.log(hi) - math.log(lo)
  ml = max(abs(math.log(lo)), abs(math.log(hi)))
  t = 4 * eps * (1.0 + ml / den)
  if s == 'REVERSE_LOG':
    t += 4 * eps * ((lo + hi) / lo) / den
  return t


def tol_value(p, x, dtype, scaled):
  """|decoded - x| allowed for a DOUBLE value x after an encode/decode trip."""
  eps = eps_of(dtype)
  lo, hi = bounds_of(p)
  m = max(abs(lo), abs(hi), hi - lo)
  s = scale_of(p)
  if scaled and float(np.asarray(lo, dtype)) == float(np.asarray(hi, dtype)):
    # degenerate in this dtype: the documented encoding is 0.5 + (x - lo), so
    # the accuracy of the trip is that of numbers of magnitude 0.5
    return 4 * eps * max(m, 0.5) + tiny_of(dtype)
  if not scaled or s == 'LINEAR' or lo == hi:
    return 4 * eps * m + tiny_of(dtype)
  ll = abs(math.log(lo)) + abs(math.log(hi))
  if s == 'LOG':
    return K * eps * (1.0 + ll) * abs(float(x))
  return K * eps * (2.0 + ll) * (lo + hi)


def distinguishable(p, dtype, scaled):
  """Can nearest-value rounding in `dtype` tell the feasible values apart?

  Needed for exactness of continuified INTEGER/DISCRETE: the gap between
  neighbours must exceed twice the DOUBLE accuracy that the statement grants
  (plus the representation error of the values themselves).
  """
  vals = [float(v) for v in feasible_of(p)]
  if len(vals) < 2:
    return True
  eps = eps_of(dtype)
  for a, b in zip(vals, vals[1:]):
    t = max(tol_value(p, a, dtype, scaled), tol_value(p, b, dtype, scaled))
    if (b - a) <= 2 * t + 4 * eps * max(abs(a), abs(b)):
      return False
  return True


def midpoints(p):
  """The three candidate midpoints of a DOUBLE range -> {scale: x}."""
  lo, hi = bounds_of(p)
  out = {'LINEAR': lo + (hi - lo) / 2}
  if lo > 0:
    g = math.sqrt(lo) * math.sqrt(hi)
    g = min(max(g, lo), hi)
    out['LOG'] = g
    out['REVERSE_LOG'] = min(max(lo + hi - g, lo), hi)
  return out
