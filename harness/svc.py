"""Service-level helpers shared by the service properties (C01,C02,C04-C08,C10,C12).

Nothing here is a model of vizier: it only builds servicers on the three
backends, installs harness policies through the public `policy_factory`
argument of PythiaServicer, and normalises protos (timestamps blanked).
"""
import datetime
import os
import tempfile

from harness import boot

boot.init()

import grpc  # noqa: E402
from vizier import pythia  # noqa: E402
from vizier import pyvizier as vz  # noqa: E402
from vizier._src.service import custom_errors  # noqa: E402
from vizier._src.service import pythia_service  # noqa: E402
from vizier._src.service import study_pb2  # noqa: E402
from vizier._src.service import vizier_service  # noqa: E402
from vizier._src.service import vizier_service_pb2 as vsp  # noqa: E402
from vizier.service import pyvizier as svz  # noqa: E402
from google.longrunning import operations_pb2  # noqa: E402

BACKENDS = ('ram', 'sqlmem', 'sqlfile')
TS = study_pb2.Trial.State
SS = study_pb2.Study.State


class TmpFiles:
  """Per-case scratch files, removed on close()."""

  def __init__(self):
    self.dir = None

  def path(self, name):
    if self.dir is None:
      self.dir = tempfile.mkdtemp(prefix='verif-db-')
    return os.path.join(self.dir, name)

  def close(self):
    if self.dir is not None:
      import shutil
      shutil.rmtree(self.dir, ignore_errors=True)
      self.dir = None


def make_servicer(backend, policy_factory=None, tmp=None, recycle_s=86400.0,
                  dbpath=None):
  """Returns a VizierServicer on `backend` in {'ram','sqlmem','sqlfile'}."""
  if backend == 'ram':
    url = None
  elif backend == 'sqlmem':
    url = 'sqlite:///:memory:'
  elif backend == 'sqlfile':
    if dbpath is None:
      dbpath = tmp.path('vizier.db')
    url = 'sqlite:///' + dbpath
  else:
    raise ValueError(backend)
  s = vizier_service.VizierServicer(
      database_url=url,
      early_stop_recycle_period=datetime.timedelta(seconds=recycle_s))
  if policy_factory is not None:
    s.default_pythia_service = pythia_service.PythiaServicer(
        s, policy_factory=policy_factory)
  return s


def close_servicer(s):
  ds = s.datastore
  conn = getattr(ds, '_connection', None)
  if conn is not None:
    try:
      conn.close()
      ds._engine.dispose()
    except Exception:  # pylint: disable=broad-except
      pass


# ---------------------------------------------------------------------------
# standard study used by history-style properties
# ---------------------------------------------------------------------------
def std_config(algorithm='HARNESS', metrics=(('m', 'MAXIMIZE'),)):
  sc = svz.StudyConfig(algorithm=algorithm)
  root = sc.search_space.root
  root.add_float_param('x', 0.0, 10.0)
  root.add_int_param('i', 0, 5)
  root.add_categorical_param('c', ['a', 'b', 'c'])
  for name, goal in metrics:
    sc.metric_information.append(vz.MetricInformation(
        name, goal=getattr(vz.ObjectiveMetricGoal, goal)))
  return sc


def det_params(k):
  """Deterministic in-space parameters for the k-th generated suggestion."""
  return {'x': round((k * 0.37) % 10.0, 6), 'i': k % 6, 'c': 'abc'[k % 3]}


def study_name(owner, sid):
  return 'owners/%s/studies/%s' % (owner, sid)


def trial_name(owner, sid, tid):
  return 'owners/%s/studies/%s/trials/%s' % (owner, sid, tid)


def create_study(s, owner, sid, config=None, **kw):
  config = config or std_config(**kw)
  return s.CreateStudy(vsp.CreateStudyRequest(
      parent='owners/' + owner,
      study=study_pb2.Study(display_name=sid, study_spec=config.to_proto())))


def measurement(value, metric='m', step=0, extra=None):
  m = study_pb2.Measurement(step_count=step)
  m.metrics.add(metric_id=metric, value=value)
  for k, v in (extra or {}).items():
    m.metrics.add(metric_id=k, value=v)
  return m


def params_to_trial_proto(params):
  t = study_pb2.Trial()
  for k, v in params.items():
    p = t.parameters.add(parameter_id=k)
    if isinstance(v, str):
      p.value.string_value = v
    else:
      p.value.number_value = float(v)
  return t


def suggest_response(op):
  r = vsp.SuggestTrialsResponse()
  if op.HasField('response'):
    r.ParseFromString(op.response.value)
  return r


# ---------------------------------------------------------------------------
# error classification
# ---------------------------------------------------------------------------
def error_class(e):
  """Client-visible class of an exception raised by a servicer call."""
  if hasattr(e, 'grpc_code'):  # histories.FakeAbort (ServicerContext.abort)
    return 'rpc:' + getattr(e.grpc_code, 'name', str(e.grpc_code))
  if isinstance(e, grpc.RpcError):
    try:
      return 'rpc:' + e.code().name
    except Exception:  # pylint: disable=broad-except
      return 'rpc:?'
  if isinstance(e, custom_errors.NotFoundError):
    return 'NotFoundError'
  if isinstance(e, custom_errors.AlreadyExistsError):
    return 'AlreadyExistsError'
  if isinstance(e, custom_errors.ImmutableStudyError):
    return 'ImmutableStudyError'
  if isinstance(e, custom_errors.ImmutableTrialError):
    return 'ImmutableTrialError'
  return type(e).__name__


# ---------------------------------------------------------------------------
# normalisation / snapshots
# ---------------------------------------------------------------------------
def norm_trial(t):
  t2 = study_pb2.Trial()
  t2.CopyFrom(t)
  t2.ClearField('start_time')
  t2.ClearField('end_time')
  return t2


def norm_study(st):
  s2 = study_pb2.Study()
  s2.CopyFrom(st)
  s2.ClearField('create_time')
  return s2


def norm_op(op):
  """Operation with response times blanked; returns (name, done, err, trials)."""
  r = suggest_response(op)
  return {
      'name': op.name, 'done': op.done,
      'error_code': op.error.code if op.HasField('error') else None,
      'trials': [norm_trial(t).SerializeToString(deterministic=True).hex()
                 for t in r.trials],
  }


def pb_hex(m):
  return m.SerializeToString(deterministic=True).hex()


def snapshot(s, owners):
  """Full observable state: {owner: {study_name: (study, [trials])}}.

  Order of lists is kept (it is observable).
  """
  snap = {}
  for o in owners:
    try:
      studies = s.ListStudies(vsp.ListStudiesRequest(parent='owners/' + o))
    except Exception as e:  # pylint: disable=broad-except
      snap[o] = 'ERR:' + error_class(e)
      continue
    d = []
    for st in studies.studies:
      try:
        trials = s.ListTrials(vsp.ListTrialsRequest(parent=st.name)).trials
        tl = [pb_hex(norm_trial(t)) for t in trials]
      except Exception as e:  # pylint: disable=broad-except
        tl = 'ERR:' + error_class(e)
      d.append((st.name, pb_hex(norm_study(st)), tl))
    snap[o] = d
  return snap


def trial_brief(t):
  return {
      'id': t.id, 'state': TS.Name(t.state), 'client': t.client_id,
      'params': {p.parameter_id: (p.value.string_value
                                  if p.value.HasField('string_value')
                                  else p.value.number_value)
                 for p in t.parameters},
      'final': [(m.metric_id, m.value) for m in t.final_measurement.metrics]
               if t.HasField('final_measurement') else None,
      'n_meas': len(t.measurements),
      'infeasible_reason': t.infeasible_reason,
      'md': sorted((kv.ns, kv.key) for kv in t.metadata),
  }


# ---------------------------------------------------------------------------
# harness policy: deterministic, configurable per case through a Plan
# ---------------------------------------------------------------------------
class Plan:
  """Per-case behaviour of the harness policy.

  deliveries[i]  for the i-th Suggest invocation (0-based): an int delta added
                 to the requested count (0 exact, +k over, -k under, clamped at
                 0) or a string 'raise:<ExcName>'. Default exact.
  es[i]          same for EarlyStop: 'ok:<bool>' or 'raise:<ExcName>'.
  """

  def __init__(self, deliveries=(), es=(), write_md=True, param_fn=None,
               md_writes=None, read_trials=False):
    self.read_trials = read_trials  # policy reads all trials via supporter
    # md_writes: {suggest_call_index: [(scope, ns_tuple, key, value), ...]}
    # scope is 'study' or an int trial id; written under (HNS,)+ns_tuple.
    self.md_writes = dict(md_writes or {})
    self.deliveries = list(deliveries)
    self.es = list(es)
    self.write_md = write_md
    self.param_fn = param_fn or det_params
    self.suggest_calls = 0
    self.es_calls = 0
    self.log = []


class _Boom(Exception):
  pass


class _RpcBoom(grpc.RpcError):
  def code(self):
    return grpc.StatusCode.INTERNAL

  def details(self):
    return 'boom'


EXC = {
    'ValueError': ValueError, 'KeyError': KeyError,
    'RuntimeError': RuntimeError, 'ZeroDivisionError': ZeroDivisionError,
    'TemporaryPythiaError': pythia.TemporaryPythiaError,
    'Exception': _Boom, 'RpcError': _RpcBoom,
    'IndexError': IndexError, 'AssertionError': AssertionError,
    'NotImplementedError': NotImplementedError,
}

HNS = 'harness'


class HarnessPolicy(pythia.Policy):
  """Deterministic policy; keeps a counter in study metadata (ns 'harness')."""

  def __init__(self, plan, supporter, study_name):
    self._plan = plan
    self._supporter = supporter
    self._study_name = study_name

  def suggest(self, request):
    plan = self._plan
    idx = plan.suggest_calls
    plan.suggest_calls += 1
    spec = plan.deliveries[idx] if idx < len(plan.deliveries) else 0
    plan.log.append(('suggest', self._study_name, request.count, spec))
    if isinstance(spec, str) and spec.startswith('raise:'):
      raise EXC[spec.split(':', 1)[1]]('injected suggest fault #%d' % idx)
    n = max(0, request.count + int(spec))
    if plan.read_trials:
      self._supporter.GetTrials()
    md = request.study_config.metadata.ns(HNS)
    k0 = int(md.get('next', '0'))
    delta = vz.MetadataDelta()
    if plan.write_md:
      delta.on_study.ns(HNS)['next'] = str(k0 + n)
      delta.on_study.ns(HNS)['calls'] = str(int(md.get('calls', '0')) + 1)
    for scope, ns, key, value in plan.md_writes.get(idx, ()):
      tgt = delta.on_study if scope == 'study' else delta.on_trials[int(scope)]
      tgt.abs_ns((HNS,) + tuple(ns))[key] = value
    sugg = [vz.TrialSuggestion(plan.param_fn(k0 + j)) for j in range(n)]
    return pythia.SuggestDecision(sugg, metadata=delta)

  def early_stop(self, request):
    plan = self._plan
    idx = plan.es_calls
    plan.es_calls += 1
    spec = plan.es[idx] if idx < len(plan.es) else 'ok:False'
    plan.log.append(('early_stop', self._study_name, spec))
    if spec.startswith('raise:'):
      raise EXC[spec.split(':', 1)[1]]('injected early-stop fault #%d' % idx)
    stop = spec.endswith('True')
    ids = sorted(request.trial_ids or [])
    return pythia.EarlyStopDecisions(
        [pythia.EarlyStopDecision(id=i, reason='harness', should_stop=stop)
         for i in ids])

  @property
  def name(self):
    return 'harness'


class HarnessPolicyFactory(pythia.PolicyFactory):
  """Routes algorithm 'HARNESS' (and early stopping) to HarnessPolicy."""

  def __init__(self, plan, fallback=None):
    self.plan = plan
    self._fallback = fallback

  def __call__(self, problem_statement, algorithm, policy_supporter,
               study_name):
    plan = self.plan
    if algorithm == 'HARNESS':
      # a 'factory:<Exc>' slot makes the *factory* fail (outside the policy's
      # suggest(), i.e. outside PythiaServicer's own try/except)
      idx = plan.suggest_calls
      spec = plan.deliveries[idx] if idx < len(plan.deliveries) else 0
      if isinstance(spec, str) and spec.startswith('factory:'):
        plan.suggest_calls += 1
        plan.log.append(('factory', study_name, spec))
        raise EXC[spec.split(':', 1)[1]]('injected factory fault #%d' % idx)
    if algorithm in ('HARNESS', 'RANDOM_SEARCH') or self._fallback is None:
      # RANDOM_SEARCH is what CheckTrialEarlyStoppingState asks for.
      return HarnessPolicy(self.plan, policy_supporter, study_name)
    return self._fallback(problem_statement, algorithm, policy_supporter,
                          study_name)
