"""Sequential reference model of the Vizier service API (C01, used by C02/C04/C05).

Written from vizier_service.proto comments, the RPC docstrings of
VizierServicer and client_abc; it imports nothing from vizier except the
generated message classes (to hold expected messages) - no datastore, no
servicer code.

Requests are concrete JSON ops (see harness/histories.py):
  ['create_study', owner, sid]          ['get_study', owner, sid]
  ['list_studies', owner]               ['delete_study', owner, sid]
  ['set_state', owner, sid, STATE]      ['create_trial', owner, sid, spec]
  ['suggest', owner, sid, worker, n]    ['get_op', owner, sid, worker, k]
  ['get_trial', owner, sid, tid]        ['list_trials', owner, sid]
  ['add_meas', owner, sid, tid, value]  ['complete', owner, sid, tid, spec]
  ['stop', owner, sid, tid]             ['delete_trial', owner, sid, tid]
  ['early_stop', owner, sid, tid]       ['update_md', owner, sid, items]
  ['list_optimal', owner, sid]

Responses are ('ok', payload) / ('err', CLASS) with CLASS in NOT_FOUND,
FAILED_PRECONDITION, INVALID, ALREADY_EXISTS.

Where the documentation leaves a choice open, the model *adopts* the
implementation's choice after checking that it is one of the allowed ones
(see `adopt_*`): which REQUESTED trial is handed out, and which suggestion's
parameters land on which new trial id.
"""
import copy

from harness import boot

boot.init()

from vizier._src.service import key_value_pb2  # noqa: E402
from vizier._src.service import study_pb2  # noqa: E402
from vizier._src.service import vizier_service_pb2 as vsp  # noqa: E402
from google.longrunning import operations_pb2  # noqa: E402

TS = study_pb2.Trial.State
SS = study_pb2.Study.State
MUTABLE_TRIAL = (TS.ACTIVE, TS.STOPPING)
IMMUTABLE_STUDY = (SS.INACTIVE, SS.COMPLETED)

NOT_FOUND = 'NOT_FOUND'
FAILED_PRECONDITION = 'FAILED_PRECONDITION'
INVALID = 'INVALID'


class ModelError(Exception):
  def __init__(self, cls):
    super().__init__(cls)
    self.cls = cls


def sname(owner, sid):
  return 'owners/%s/studies/%s' % (owner, sid)


def tname(owner, sid, tid):
  return 'owners/%s/studies/%s/trials/%s' % (owner, sid, tid)


def opname(owner, sid, worker, k):
  return 'owners/%s/operations/suggestion/%s/%s/%d' % (owner, sid, worker, k)


class MStudy:
  def __init__(self, proto):
    self.proto = proto  # study_pb2.Study
    self.trials = {}  # id -> study_pb2.Trial, insertion ordered
    self.ops = {}  # worker -> {k: Operation}


class Model:
  """Reference model. `spec_proto` is the StudySpec used for every study."""

  def __init__(self, spec_proto, param_fn, goals=None):
    self.owners = {}  # owner -> {sid: MStudy} ; owners persist once created
    self.spec = spec_proto
    self.param_fn = param_fn  # k -> dict of parameters (the harness policy)
    self.goals = goals or {'m': 'MAXIMIZE'}

  # ---------------------------------------------------------------- helpers
  def _study(self, owner, sid):
    st = self.owners.get(owner, {}).get(sid)
    if st is None:
      raise ModelError(NOT_FOUND)
    return st

  def _guard_mutable_study(self, owner, sid):
    st = self._study(owner, sid)
    if st.proto.state in IMMUTABLE_STUDY:
      raise ModelError(FAILED_PRECONDITION)
    return st

  def _trial(self, st, tid):
    t = st.trials.get(int(tid))
    if t is None:
      raise ModelError(NOT_FOUND)
    return t

  @staticmethod
  def _max_id(st):
    return max(st.trials) if st.trials else 0

  # -------------------------------------------------------------------- rpcs
  def create_study(self, owner, sid):
    studies = self.owners.setdefault(owner, {})
    if sid in studies:
      return copy.deepcopy(studies[sid].proto)
    p = study_pb2.Study(display_name=sid, name=sname(owner, sid))
    p.study_spec.CopyFrom(self.spec)
    studies[sid] = MStudy(p)
    return copy.deepcopy(p)

  def get_study(self, owner, sid):
    return copy.deepcopy(self._study(owner, sid).proto)

  def list_studies(self, owner):
    if owner not in self.owners:
      raise ModelError(NOT_FOUND)
    return [copy.deepcopy(s.proto) for s in self.owners[owner].values()]

  def delete_study(self, owner, sid):
    self._study(owner, sid)
    del self.owners[owner][sid]
    return None

  def set_state(self, owner, sid, state):
    st = self._study(owner, sid)
    st.proto.state = getattr(SS, state)
    return copy.deepcopy(st.proto)

  def create_trial(self, owner, sid, trial_proto):
    st = self._guard_mutable_study(owner, sid)
    t = study_pb2.Trial()
    t.CopyFrom(trial_proto)
    tid = self._max_id(st) + 1
    t.id = str(tid)
    t.name = tname(owner, sid, tid)
    if t.state != TS.SUCCEEDED:
      t.state = TS.REQUESTED
    t.ClearField('client_id')
    t.ClearField('start_time')
    st.trials[tid] = t
    return copy.deepcopy(t)

  def get_trial(self, owner, sid, tid):
    st = self._study(owner, sid)
    return copy.deepcopy(self._trial(st, tid))

  def list_trials(self, owner, sid):
    st = self._study(owner, sid)
    return [copy.deepcopy(t) for t in st.trials.values()]

  def add_meas(self, owner, sid, tid, meas):
    st = self._guard_mutable_study(owner, sid)
    t = self._trial(st, tid)
    if t.state == TS.INFEASIBLE:
      return copy.deepcopy(t)
    if t.state not in MUTABLE_TRIAL:
      raise ModelError(FAILED_PRECONDITION)
    t.measurements.add().CopyFrom(meas)
    return copy.deepcopy(t)

  def complete(self, owner, sid, tid, final, infeasible, reason):
    st = self._guard_mutable_study(owner, sid)
    t = self._trial(st, tid)
    if t.state not in MUTABLE_TRIAL:
      raise ModelError(FAILED_PRECONDITION)
    if final is not None and final.metrics:
      t.final_measurement.CopyFrom(final)
    elif not infeasible:
      if not t.measurements:
        raise ModelError(INVALID)
      t.final_measurement.CopyFrom(t.measurements[-1])
    t.state = TS.SUCCEEDED
    if infeasible:
      t.state = TS.INFEASIBLE
      t.infeasible_reason = reason
    return copy.deepcopy(t)

  def stop(self, owner, sid, tid):
    st = self._guard_mutable_study(owner, sid)
    t = self._trial(st, tid)
    if t.state == TS.ACTIVE:
      t.state = TS.STOPPING
    elif t.state in (TS.STOPPING, TS.SUCCEEDED):
      pass
    else:
      raise ModelError(FAILED_PRECONDITION)
    return copy.deepcopy(t)

  def delete_trial(self, owner, sid, tid):
    st = self._guard_mutable_study(owner, sid)
    self._trial(st, tid)
    del st.trials[int(tid)]
    return None

  def early_stop(self, owner, sid, tid):
    st = self._guard_mutable_study(owner, sid)
    t = self._trial(st, tid)
    if t.state not in MUTABLE_TRIAL:
      raise ModelError(FAILED_PRECONDITION)
    return None  # advisory boolean: not modelled

  @staticmethod
  def _merge(md_field, kvs):
    d = {}
    for kv in md_field:
      d[(kv.ns, kv.key)] = kv
    for kv in kvs:
      d[(kv.ns, kv.key)] = kv
    merged = [copy.deepcopy(d[k]) for k in sorted(d)]
    del md_field[:]
    md_field.extend(merged)

  def update_md(self, owner, sid, study_kvs, trial_kvs):
    """trial_kvs: list of (tid, KeyValue). Returns True iff an error is reported."""
    st = self._guard_mutable_study(owner, sid)
    for tid, _ in trial_kvs:
      # not the id of any trial (trial ids are positive integers): rejected
      # like a malformed resource name, nothing changes
      if not str(tid).strip().lstrip('+').isdigit() or int(tid) <= 0:
        raise ModelError('BAD_NAME')
    for tid, _ in trial_kvs:
      if int(tid) not in st.trials:
        return True  # reported via error_details, nothing changes
    self._merge(st.proto.study_spec.metadata, study_kvs)
    by_trial = {}
    for tid, kv in trial_kvs:
      by_trial.setdefault(int(tid), []).append(kv)
    for tid, kvs in by_trial.items():
      self._merge(st.trials[tid].metadata, kvs)
    return False

  def list_optimal(self, owner, sid):
    st = self._study(owner, sid)
    names = list(self.goals)
    cands = []
    for t in st.trials.values():
      if t.state != TS.SUCCEEDED:
        continue
      vals = {m.metric_id: m.value for m in t.final_measurement.metrics}
      if not all(n in vals for n in names):
        continue
      vec = [vals[n] if self.goals[n] == 'MAXIMIZE' else -vals[n]
             for n in names]
      cands.append((t, vec))
    out = []
    for t, v in cands:
      dominated = False
      for _, w in cands:
        if all(b >= a for a, b in zip(v, w)) and any(
            b > a for a, b in zip(v, w)):
          dominated = True
          break
      if not dominated:
        out.append(copy.deepcopy(t))
    return out

  # ----------------------------------------------------------------- suggest
  def suggest(self, owner, sid, worker, n, delivered, real_trials=None,
              real_all=None):
    """Model of SuggestTrials.

    delivered: number of suggestions the policy returns when invoked (None =
      exactly what is asked).  real_trials: the trials of the real response
      (used only to adopt unspecified choices, after validating them).
      real_all: real ListTrials after the call (to adopt surplus placement).
    Returns (op_name, [trials], policy_invoked, problems) where problems is a
    list of strings describing why an implementation choice was not allowed.
    """
    st = self._guard_mutable_study(owner, sid)
    problems = []
    ops = st.ops.setdefault(worker, {})
    k = len(ops) + 1
    name = opname(owner, sid, worker, k)
    own = [t for t in st.trials.values()
           if t.state == TS.ACTIVE and t.client_id == worker]
    invoked = False
    if len(own) >= n:
      out = own[:n]
    else:
      out = list(own)
      requested = [t for t in st.trials.values() if t.state == TS.REQUESTED]
      need = n - len(out)
      take = min(need, len(requested))
      chosen = None
      if take:
        # adopt which REQUESTED trials the implementation picked
        if real_trials is not None:
          req_ids = {int(t.id) for t in requested}
          own_ids = {int(t.id) for t in own}
          picked = [int(t.id) for t in real_trials
                    if int(t.id) in req_ids and int(t.id) not in own_ids]
          if len(picked) == take and len(set(picked)) == take:
            chosen = [st.trials[i] for i in picked]
          else:
            problems.append('expected %d REQUESTED trials to be handed out, '
                            'implementation handed out %r of pool %r' % (
                                take, picked, sorted(req_ids)))
        if chosen is None:
          chosen = requested[::-1][:take]
        for t in chosen:
          t.state = TS.ACTIVE
          t.client_id = worker
          out.append(t)
      if len(out) < n:
        invoked = True
        ask = n - len(out)
        count = ask if delivered is None else delivered
        # policy bookkeeping in study metadata (ns ':harness')
        md = {(kv.ns, kv.key): kv.value
              for kv in st.proto.study_spec.metadata}
        k0 = int(md.get((':harness', 'next'), '0'))
        calls = int(md.get((':harness', 'calls'), '0'))
        self._merge(st.proto.study_spec.metadata, [
            key_value_pb2.KeyValue(ns=':harness', key='calls',
                                   value=str(calls + 1)),
            key_value_pb2.KeyValue(ns=':harness', key='next',
                                   value=str(k0 + count)),
        ])
        sugg = [self.param_fn(k0 + j) for j in range(count)]
        n_active = min(ask, count)
        base = self._max_id(st)
        new = []
        for j in range(count):
          tid = base + 1 + j
          t = study_pb2.Trial(id=str(tid), name=tname(owner, sid, tid))
          if j < n_active:
            t.state = TS.ACTIVE
            t.client_id = worker
          else:
            t.state = TS.REQUESTED
          new.append(t)
        # adopt the assignment of suggestions to ids, after checking that it
        # is a bijection onto the delivered suggestions
        assigned = None
        if real_all is not None:
          real_by_id = {int(t.id): t for t in real_all}
          got = []
          for t in new:
            r = real_by_id.get(int(t.id))
            if r is None:
              got = None
              break
            got.append({p.parameter_id: (p.value.string_value
                                         if p.value.HasField('string_value')
                                         else p.value.number_value)
                        for p in r.parameters})
          if got is not None:
            key = lambda d: sorted((k_, repr(v)) for k_, v in d.items())
            want = [{k_: (float(v) if not isinstance(v, str) else v)
                     for k_, v in s.items()} for s in sugg]
            if sorted(map(key, got)) == sorted(map(key, want)):
              assigned = got
            else:
              problems.append('parameters of new trials %r are not a '
                              'permutation of the delivered suggestions %r'
                              % (got, want))
        if assigned is None:
          assigned = list(reversed(sugg))
        for t, params in zip(new, assigned):
          for pk, pv in params.items():
            p = t.parameters.add(parameter_id=pk)
            if isinstance(pv, str):
              p.value.string_value = pv
            else:
              p.value.number_value = float(pv)
          st.trials[int(t.id)] = t
          if t.state == TS.ACTIVE:
            out.append(t)
    op = operations_pb2.Operation(name=name, done=True)
    op.response.value = vsp.SuggestTrialsResponse(
        trials=[copy.deepcopy(t) for t in out]).SerializeToString()
    ops[k] = op
    return name, [copy.deepcopy(t) for t in out], invoked, problems

  def get_op(self, owner, sid, worker, k):
    st = self.owners.get(owner, {}).get(sid)
    if st is None or worker not in st.ops or k not in st.ops[worker]:
      raise ModelError(NOT_FOUND)
    return copy.deepcopy(st.ops[worker][k])

  # ---------------------------------------------------------------- snapshot
  def snapshot(self, owners):
    """Same shape as svc.snapshot but from the model (protos, not hex)."""
    snap = {}
    for o in owners:
      if o not in self.owners:
        snap[o] = 'ERR:NOT_FOUND'
        continue
      snap[o] = [(s.proto.name, copy.deepcopy(s.proto),
                  [copy.deepcopy(t) for t in s.trials.values()])
                 for s in self.owners[o].values()]
    return snap
