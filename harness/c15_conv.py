"""Uniform adapters over vizier's trial<->array converters (C15).

An adapter only *drives* the public API of one converter class and splits /
assembles arrays along the converter's published `output_specs`; it contains no
numerics of its own (those are in c15_model.py).

  encode(trials)   -> (raw, blocks) raw = what to_features returned, blocks =
                      {param name: np.ndarray (n_trials, width)}
  decode(raw)      -> list of ParameterDict (>= n_trials entries)
  assemble(blocks, junk) -> raw object accepted by to_parameters built from
                      per-parameter blocks (+ arbitrary `junk` in padding)
"""
import numpy as np

CLASSES = ('dict', 'array', 'padded', 'cc', 'model_input', 'scaler')
JAX_CLASSES = ('padded', 'model_input')
PADS = ('NONE', 'MULTIPLES_OF_10', 'POWERS_OF_2')


def effective(conv):
  """Normalises an option dict to what the chosen class actually uses."""
  c = dict(conv)
  cls = c['cls']
  if cls in ('array', 'padded'):
    c['onehot'] = True
  if cls in ('cc', 'model_input', 'scaler'):
    c['onehot'] = False
  if not c['onehot']:
    c['pad_oovs'] = True  # irrelevant: index features always carry the slot
  if cls not in ('dict', 'array'):
    c['clip'] = True
  if cls not in ('padded', 'model_input'):
    c['pad'] = ['NONE', 'NONE', 'NONE']
  if cls == 'scaler':
    c.update(scale=True, mdi=0, dtype='float32')
  return c


def f32_carrier(conv):
  return (conv['dtype'] == 'float32' or conv['cls'] in JAX_CLASSES
          or conv['cls'] == 'scaler')


def padded_dim(d, kind):
  if kind == 'NONE':
    return d
  if kind == 'MULTIPLES_OF_10':
    return ((d + 9) // 10) * 10
  if d == 0:
    return 0
  p = 1
  while p < d:
    p *= 2
  return p


def _mdi(v):
  return 10 ** 9 if v == 'inf' else int(v)


class Adapter:

  def __init__(self, problem, conv):
    from vizier import pyvizier as vz
    from vizier.pyvizier.converters import core
    self.vz = vz
    self.core = core
    self.problem = problem
    self.conv = conv
    self.cls = conv['cls']
    self.dtype = np.dtype(conv['dtype'])
    kw = dict(scale=conv['scale'], max_discrete_indices=_mdi(conv['mdi']))
    cls = self.cls
    self.schedule = None
    if cls in JAX_CLASSES:
      from vizier.pyvizier.converters import padding
      t, f, m = (getattr(padding.PaddingType, x) for x in conv['pad'])
      self.schedule = padding.PaddingSchedule(num_trials=t, num_features=f,
                                              num_metrics=m)
    flip = conv.get('flip', True)
    if cls == 'dict':
      pcs = [core.DefaultModelInputConverter(
          pc, float_dtype=self.dtype, onehot_embed=conv['onehot'],
          pad_oovs=conv['pad_oovs'], should_clip=conv['clip'], **kw)
             for pc in problem.search_space.parameters]
      mcs = [core.DefaultModelOutputConverter(
          mi, flip_sign_for_minimization_metrics=flip, dtype=self.dtype)
             for mi in problem.metric_information]
      self.c = core.DefaultTrialConverter(pcs, mcs)
      self.specs = list(self.c.output_specs.values())
    elif cls == 'array':
      self.c = core.TrialToArrayConverter.from_study_config(
          problem, pad_oovs=conv['pad_oovs'], should_clip=conv['clip'],
          flip_sign_for_minimization_metrics=flip, dtype=self.dtype, **kw)
      self.specs = list(self.c.output_specs)
    elif cls == 'padded':
      from vizier.pyvizier.converters import jnp_converters
      self.c = jnp_converters.PaddedTrialToArrayConverter.from_study_config(
          problem, pad_oovs=conv['pad_oovs'], padding_schedule=self.schedule,
          flip_sign_for_minimization_metrics=flip, dtype=self.dtype, **kw)
      self.specs = list(self.c.output_specs)
    elif cls == 'cc':
      from vizier.pyvizier.converters import jnp_converters
      self.c = (jnp_converters.TrialToContinuousAndCategoricalConverter
                .from_study_config(
                    problem, flip_sign_for_minimization_metrics=flip,
                    dtype=self.dtype, **kw))
      sp = self.c.output_specs
      self.specs = self._order(list(sp.continuous) + list(sp.categorical))
    elif cls == 'model_input':
      from vizier.pyvizier.converters import jnp_converters
      self.c = jnp_converters.TrialToModelInputConverter.from_problem(
          problem, flip_sign_for_minimization_metrics=flip, dtype=self.dtype,
          padding_schedule=self.schedule, **kw)
      sp = self.c.output_specs
      self.specs = self._order(list(sp.continuous) + list(sp.categorical))
    elif cls == 'scaler':
      from vizier.pyvizier.converters import embedder
      self.c = embedder.ProblemAndTrialsScaler(problem)
      self.specs = None
    else:
      raise ValueError(cls)
    self.names = [pc.name for pc in problem.search_space.parameters]

  def _order(self, specs):
    by = {s.name: s for s in specs}
    return [by[pc.name] for pc in self.problem.search_space.parameters
            if pc.name in by]

  # ------------------------------------------------------------------ encode
  def spec_of(self, name):
    for s in self.specs:
      if s.name == name:
        return s
    return None

  def _split(self, arr):
    blocks = {}
    i = 0
    for s in self.specs:
      blocks[s.name] = np.asarray(arr[:, i:i + s.num_dimensions])
      i += s.num_dimensions
    return blocks, i

  def _split_cc(self, cont, cat):
    T = self.core.NumpyArraySpecType
    blocks = {}
    ci = di = 0
    for s in self.specs:
      if s.type == T.CONTINUOUS:
        blocks[s.name] = np.asarray(cont[:, ci:ci + 1])
        ci += 1
      else:
        blocks[s.name] = np.asarray(cat[:, di:di + 1])
        di += 1
    return blocks, ci, di

  def encode(self, trials):
    n = len(trials)
    cls = self.cls
    info = {}
    if cls == 'dict':
      raw = self.c.to_features(trials)
      blocks = {k: np.asarray(v) for k, v in raw.items()}
    elif cls == 'array':
      raw = self.c.to_features(trials)
      blocks, used = self._split(raw)
      info['total_width'] = (raw.shape[1], used)
    elif cls == 'padded':
      raw = self.c.to_features(trials)
      full = np.asarray(raw.padded_array)
      blocks, used = self._split(full[:n])
      info['padded_shape'] = tuple(full.shape)
      info['expect_shape'] = (padded_dim(n, self.conv['pad'][0]),
                              padded_dim(used, self.conv['pad'][1]))
      info['unpad_shape'] = tuple(np.asarray(raw.unpad()).shape)
      info['orig_shape'] = (n, used)
      info['padding_is_fill'] = bool(
          np.all(np.isnan(full[n:])) and np.all(np.isnan(full[:, used:])))
    elif cls == 'cc':
      raw = self.c.to_features(trials)
      blocks, ci, di = self._split_cc(np.asarray(raw.continuous),
                                      np.asarray(raw.categorical))
      info['total_width'] = (
          raw.continuous.shape[1] + raw.categorical.shape[1], ci + di)
    elif cls == 'model_input':
      raw = self.c.to_features(trials)
      cont = np.asarray(raw.continuous.unpad())
      cat = np.asarray(raw.categorical.unpad())
      blocks, ci, di = self._split_cc(cont, cat)
      info['padded_shape'] = (tuple(raw.continuous.shape),
                              tuple(raw.categorical.shape))
      info['expect_shape'] = (
          (padded_dim(n, self.conv['pad'][0]),
           padded_dim(ci, self.conv['pad'][1])),
          (padded_dim(n, self.conv['pad'][0]),
           padded_dim(di, self.conv['pad'][1])))
      info['unpad_shape'] = (tuple(cont.shape), tuple(cat.shape))
      info['orig_shape'] = ((n, ci), (n, di))
    else:  # scaler
      raw = self.c.map(trials)
      blocks = {}
      for name in self.names:
        vals = [t.parameters[name].value for t in raw]
        if all(isinstance(v, (str, bool)) for v in vals):
          # categorical values pass through unchanged (a boolean parameter may
          # carry a Python bool)
          blocks[name] = np.asarray([str(v) for v in vals],
                                    dtype=object).reshape(-1, 1)
        else:
          blocks[name] = np.asarray(vals, dtype=np.float64).reshape(-1, 1)
    return raw, blocks, info

  # ------------------------------------------------------------------ decode
  def decode_input(self, raw):
    """The object handed to to_parameters for a raw to_features result."""
    if self.cls == 'padded':
      return np.asarray(raw.padded_array)
    return raw

  def decode(self, arg):
    if self.cls == 'scaler':
      return [t.parameters for t in self.c.unmap(arg)]
    return list(self.c.to_parameters(arg))

  def snapshot(self, arg):
    """Deep numeric copy of a to_parameters argument (mutation check)."""
    cls = self.cls
    if cls == 'dict':
      return {k: np.array(v, copy=True) for k, v in arg.items()}
    if cls in ('array', 'padded'):
      return np.array(arg, copy=True)
    if cls == 'cc':
      return (np.array(arg.continuous, copy=True),
              np.array(arg.categorical, copy=True))
    if cls == 'model_input':
      return (np.array(arg.continuous.padded_array, copy=True),
              np.array(arg.categorical.padded_array, copy=True))
    return [dict((k, v.value) for k, v in t.parameters.items()) for t in arg]

  @staticmethod
  def same(a, b):
    if isinstance(a, dict):
      return set(a) == set(b) and all(Adapter.same(a[k], b[k]) for k in a)
    if isinstance(a, (tuple, list)):
      return len(a) == len(b) and all(Adapter.same(x, y)
                                      for x, y in zip(a, b))
    if isinstance(a, np.ndarray):
      return (a.shape == b.shape and a.dtype == b.dtype
              and bool(np.array_equal(a, b, equal_nan=a.dtype.kind == 'f')))
    return a == b

  # ---------------------------------------------------------------- assemble
  def assemble(self, blocks, n, junk=7.5):
    """blocks: {name: (n, width) array in the spec's dtype}."""
    from vizier._src.jax import types as vt
    T = self.core.NumpyArraySpecType
    cls = self.cls
    if cls == 'dict':
      return {s.name: blocks[s.name] for s in self.specs}
    if cls in ('array', 'padded'):
      cols = [np.asarray(blocks[s.name], dtype=self.dtype) for s in self.specs]
      arr = (np.concatenate(cols, axis=1) if cols
             else np.zeros((n, 0), self.dtype))
      if cls == 'padded':
        want = padded_dim(arr.shape[1], self.conv['pad'][1])
        if want > arr.shape[1]:
          arr = np.concatenate(
              [arr, np.full((n, want - arr.shape[1]), junk, self.dtype)], 1)
      return arr
    cont = [np.asarray(blocks[s.name], dtype=self.dtype) for s in self.specs
            if s.type == T.CONTINUOUS]
    cat = [np.asarray(blocks[s.name], dtype=vt.INT_DTYPE) for s in self.specs
           if s.type != T.CONTINUOUS]
    cont = (np.concatenate(cont, 1) if cont else np.zeros((n, 0), np.float64))
    cat = (np.concatenate(cat, 1) if cat else np.zeros((n, 0), vt.INT_DTYPE))
    if cls == 'cc':
      return vt.ContinuousAndCategoricalArray(cont, cat)
    return vt.ContinuousAndCategorical(self.schedule.pad_features(cont),
                                       self.schedule.pad_features(cat))

