"""C09 generators: JSON case descriptions for every pyvizier value type that
crosses the wire, the builders that turn them into vizier objects, and the
"avoid a known trigger" rewrites.

Everything here is input construction; nothing is a model of the converters.

JSON shapes
  space     {'via': 'builder'|'factory', 'params': [param, ...]}
  param     harness.spaces format + 'ext' (factory path: external type name or
            None) ; children groups have pairwise disjoint 'parent_values'
  metric    {'name','goal','safety': float|None,'fraction': float|None}
  meas      {'metrics': [[name, value, std|None], ...], 'elapsed': float,
             'steps': int, 'ckpt': str}
  md        [[ [ns components], key, value ], ...] value = ['s', text] |
            ['dur', secs] (packed Any) | ['msg', secs] (raw Duration message) |
            ['any', type_url, hex]
  trial     {'id','status','params': [[name, value]],'md','worker','stop_reason',
             'infeasible_reason','description','links','final','measurements',
             'created_us','completed_us'}
  delta     {'study': md, 'trials': [[id, md], ...]}
"""
import datetime
import math

from hypothesis import strategies as st

from harness import spaces

AVOIDABLE = ('falsy_default', 'fractional_secs', 'depth3',
             'infeasible_completion', 'no_prediction')

NAMES = ['x', 'y', 'lr', 'n', 'w0', 'p', 'q']
HOSTILE = ['a:b', 'a\\b', 'é', 'a b', 'x[0]', 'x[1]', 'q.r', 'True', '0',
           '日本', ':', '\\']
TEXTS = ['', 'a', 'm', 'obj', 'é', 'a:b', 'a\\b', ' ', 'x[0]', '日本', '0',
         'False', 'None', '\x00', 'a\nb']
EPOCH = datetime.datetime(1970, 1, 1, tzinfo=datetime.timezone.utc)
MAX_EXACT_INT = 2 ** 53


def hostile_text(s):
  return any(ord(ch) > 127 or ch in ':\\[]. \n\x00' for ch in s)


def text():
  return st.one_of(st.sampled_from(TEXTS), st.text(max_size=5))


def nonempty_text():
  return st.one_of(st.sampled_from([t for t in TEXTS if t] + NAMES),
                   st.text(min_size=1, max_size=5))


def is_falsy_default(v):
  return not isinstance(v, bool) and v in (0, 0.0, '')


# ---------------------------------------------------------------------------
# search spaces
# ---------------------------------------------------------------------------
def _default_candidates(p):
  k = p['kind']
  if k == 'DOUBLE':
    lo, hi = p['lo'], p['hi']
    c = [lo, hi, lo + (hi - lo) / 2]
    if lo <= 0.0 <= hi:
      c += [0.0, 0.0]
    return c
  if k == 'INTEGER':
    lo, hi = p['lo'], p['hi']
    c = [lo, hi, lo + (hi - lo) // 2]
    if lo <= 0 <= hi:
      c += [0, 0]
    return c
  if k == 'DISCRETE':
    c = list(p['values'])
    c += [v for v in c if v == 0] * 2
    return c
  if k == 'CATEGORICAL':
    c = list(p['values'])
    c += [v for v in c if v in ('', 'False', '0')]
    return c
  return [True, False]


@st.composite
def _param(draw, name, via):
  p = draw(spaces.param_spec(name, defaults=False))
  k = p['kind']
  # make zero / '' reachable in the domains more often
  if k == 'DISCRETE' and p['scale'] not in ('LOG', 'REVERSE_LOG') and draw(
      st.integers(0, 2)) == 0 and not any(v == 0 for v in p['values']):
    zero = 0 if all(isinstance(v, int) for v in p['values']) else 0.0
    p['values'] = sorted(p['values'] + [zero])
  if k == 'CATEGORICAL' and '' not in p['values'] and draw(
      st.integers(0, 3)) == 0:
    p['values'] = sorted(p['values'] + [''])
  if k == 'INTEGER' and draw(st.integers(0, 9)) == 0:
    big = draw(st.sampled_from([2 ** 31, 2 ** 53 + 1, 2 ** 62]))
    p['lo'], p['hi'] = -big, big
    p['scale'] = draw(st.sampled_from([None, 'LINEAR']))
  if draw(st.integers(0, 9)) < 6:
    p['default'] = draw(st.sampled_from(_default_candidates(p)))
  if via == 'factory':
    # any external type on any kind ("not all combinations make sense" but
    # all are accepted); scale None stays None on the factory path
    p['ext'] = draw(st.sampled_from(
        [None, 'INTERNAL', 'BOOLEAN', 'INTEGER', 'FLOAT']))
  return p


@st.composite
def space_spec(draw, max_depth=3, max_root=3):
  via = draw(st.sampled_from(['builder', 'factory']))
  pool = NAMES + HOSTILE

  def level(depth, banned):
    n = draw(st.integers(1, max_root if depth == 1 else 2))
    names = draw(st.lists(st.sampled_from([x for x in pool if x not in banned]),
                          min_size=n, max_size=n, unique=True))
    params = []
    for nm in names:
      p = draw(_param(nm, via))
      pv = spaces.parent_values_of(p)
      if p['kind'] == 'INTEGER' and abs(p['lo']) > MAX_EXACT_INT:
        pv = []  # vizier requires float(v) == v for numeric parent values
      if depth < max_depth and pv and draw(st.integers(0, 9)) < (
          6 if depth == 1 else 5):
        groups = []
        rest = list(pv)
        for _ in range(draw(st.integers(1, 2))):
          if not rest:
            break
          sel = draw(st.lists(st.sampled_from(rest), min_size=1,
                              max_size=min(2, len(rest)), unique=True))
          rest = [v for v in rest if v not in sel]
          groups.append({'parent_values': sel,
                         'params': level(depth + 1, banned | {nm})})
        p['children'] = groups
      params.append(p)
    return params
  return {'via': via, 'params': level(1, frozenset())}


def space_depth(params):
  d = 0
  for p in params:
    sub = max([space_depth(g['params']) for g in p.get('children', ())] or [0])
    d = max(d, 1 + sub)
  return d


def walk_params(params, depth=1):
  for p in params:
    yield p, depth
    for g in p.get('children', ()):
      yield from walk_params(g['params'], depth + 1)


def avoid_space(spec, avoid, avoided):
  """Rewrites the triggers named in `avoid` out of a space spec (in place)."""
  if 'depth3' in avoid:
    for p, depth in list(walk_params(spec['params'])):
      if depth == 2 and p.get('children'):
        del p['children']
        avoided.add('depth3')
  if 'falsy_default' in avoid:
    for p, _ in walk_params(spec['params']):
      if 'default' in p and is_falsy_default(p['default']):
        alt = [v for v in _default_candidates(p)
               if not is_falsy_default(v)]
        if alt:
          p['default'] = alt[0]
        else:
          del p['default']
        avoided.add('falsy_default')
  return spec


def _scale(vz, s):
  return None if s is None else getattr(vz.ScaleType, s)


def factory_pc(p):
  """ParameterConfig.factory path (all external types, scale None allowed)."""
  from vizier import pyvizier as vz
  kw = {}
  k = p['kind']
  ext = p.get('ext')
  default = p.get('default')
  if k == 'DOUBLE':
    kw['bounds'] = (float(p['lo']), float(p['hi']))
  elif k == 'INTEGER':
    kw['bounds'] = (int(p['lo']), int(p['hi']))
  elif k in ('DISCRETE', 'CATEGORICAL'):
    kw['feasible_values'] = list(p['values'])
  else:  # BOOL: categorical with the BOOLEAN external type
    kw['feasible_values'] = ['False', 'True']
    ext = 'BOOLEAN'
    if default is not None:
      default = 'True' if default else 'False'
  children = []
  for g in p.get('children', ()):
    pvals = g['parent_values']
    if k == 'BOOL':
      pvals = ['True' if v else 'False' for v in pvals]
    for c in g['params']:
      children.append((list(pvals), factory_pc(c)))
  return vz.ParameterConfig.factory(
      p['name'], scale_type=_scale(vz, p.get('scale')), default_value=default,
      external_type=(getattr(vz.ExternalType, ext) if ext else None),
      children=children or None, **kw)


def build_space(spec, space=None):
  from vizier import pyvizier as vz
  if spec.get('via', 'builder') == 'builder':
    return spaces.build(spec, space)
  space = space if space is not None else vz.SearchSpace()
  for p in spec['params']:
    space.add(factory_pc(p))
  return space


# ---------------------------------------------------------------------------
# metrics
# ---------------------------------------------------------------------------
def _finite():
  return st.one_of(
      st.sampled_from([0.0, -0.0, 1.0, -1.0, 0.5, 1e300, -1e300, 1e-300,
                       5e-324, 1.7976931348623157e308]),
      st.floats(allow_nan=False, allow_infinity=False))


@st.composite
def metric_spec(draw, name=None):
  m = {'name': draw(text()) if name is None else name,
       'goal': draw(st.sampled_from(['MAXIMIZE', 'MINIMIZE'])),
       'safety': None, 'fraction': None}
  if draw(st.integers(0, 9)) < 6:
    m['safety'] = draw(st.one_of(st.sampled_from([0.0, 0.0, -0.0, 1.0, -3.5]),
                                 _finite()))
    if draw(st.integers(0, 9)) < 6:
      m['fraction'] = draw(st.one_of(
          st.sampled_from([0.0, 0.0, 1.0, 0.5]),
          st.floats(min_value=0.0, max_value=1.0)))
  return m


def build_metric(m):
  from vizier import pyvizier as vz
  return vz.MetricInformation(
      name=m['name'], goal=getattr(vz.ObjectiveMetricGoal, m['goal']),
      safety_threshold=m['safety'],
      desired_min_safe_trials_fraction=m['fraction'])


def metrics_list(max_size=3):
  return st.lists(text(), max_size=max_size, unique=True).flatmap(
      lambda names: st.tuples(*[metric_spec(n) for n in names]).map(list))


# ---------------------------------------------------------------------------
# measurements
# ---------------------------------------------------------------------------
def _metric_value():
  return st.one_of(
      st.sampled_from([0.0, 0.0, -0.0, 1.0, -2.5, 1e300, -1e300, 1e-300,
                       float('inf'), float('-inf'), float('nan')]),
      st.floats(allow_nan=False))


def _elapsed():
  us = st.integers(0, 999999)
  return st.one_of(
      st.sampled_from([0.0, 0.0, 1.0, 1.5, 0.5, 1e-6, 0.999999, 2.25, 3600.0,
                       86400.5]),
      # fractions that round up to a whole second at nanosecond resolution
      st.tuples(st.integers(0, 3600), st.sampled_from(
          [0.9999999996, 0.99999999951, 0.9999999999, 0.99999999999])).map(
              lambda t: t[0] + t[1]),
      st.integers(0, 10 ** 9).map(float),
      st.tuples(st.integers(0, 10 ** 7), us).map(
          lambda t: t[0] + t[1] / 1e6),
      st.tuples(st.integers(0, 10 ** 3), st.integers(0, 999)).map(
          lambda t: t[0] + t[1] / 1e3))


@st.composite
def meas_spec(draw, max_metrics=3):
  names = draw(st.lists(text(), max_size=max_metrics, unique=True))
  metrics = []
  for n in names:
    std = None
    if draw(st.integers(0, 4)) == 0:
      std = draw(st.sampled_from([0.0, 0.5, 2.0]))
    metrics.append([n, draw(_metric_value()), std])
  return {
      'metrics': metrics,
      'elapsed': draw(_elapsed()),
      'steps': draw(st.one_of(st.sampled_from([0, 0, 1, 7, 2 ** 31, 2 ** 62]),
                              st.integers(0, 10 ** 6))),
      'ckpt': draw(st.sampled_from(['', '', '/tmp/ckpt/é'])),
  }


def avoid_meas(m, avoid, avoided):
  if m is not None and 'fractional_secs' in avoid:
    if m['elapsed'] != math.floor(m['elapsed']):
      m['elapsed'] = float(math.floor(m['elapsed']))
      avoided.add('fractional_secs')
  return m


def build_meas(m):
  from vizier import pyvizier as vz
  metrics = {}
  for name, value, std in m['metrics']:
    metrics[name] = vz.Metric(value=value, std=std)
  return vz.Measurement(metrics=metrics, elapsed_secs=m['elapsed'],
                        steps=m['steps'], checkpoint_path=m['ckpt'])


# ---------------------------------------------------------------------------
# metadata
# ---------------------------------------------------------------------------
NS_COMP = ['', 'a', 'b', ':', '\\', 'a:b', 'é', ' ', 'ab', '\\:', 'algo']
RESERVED_NS = ('service',)


def md_spec(max_size=4):
  comp = st.one_of(st.sampled_from(NS_COMP), st.text(max_size=3))
  ns = st.lists(comp, max_size=3).filter(
      lambda n: not (n and n[0] in RESERVED_NS))
  value = st.one_of(
      st.tuples(st.just('s'), text()),
      st.tuples(st.just('dur'), st.integers(0, 5)),
      st.tuples(st.just('msg'), st.integers(0, 5)),
      st.tuples(st.just('any'), st.sampled_from(['', 'type.x/Y']),
                st.binary(max_size=4).map(lambda b: b.hex())),
  ).map(list)
  return st.lists(st.tuples(ns, text(), value).map(list), max_size=max_size)


def md_value(v):
  from google.protobuf import any_pb2, duration_pb2
  if v[0] == 's':
    return v[1]
  if v[0] == 'dur':
    a = any_pb2.Any()
    a.Pack(duration_pb2.Duration(seconds=v[1]))
    return a
  if v[0] == 'msg':
    return duration_pb2.Duration(seconds=v[1])
  return any_pb2.Any(type_url=v[1], value=bytes.fromhex(v[2]))


def fill_md(md, items):
  for ns, key, v in items:
    md.abs_ns(list(ns))[key] = md_value(v)
  return md


def build_md(items):
  """Metadata with the items at their absolute namespaces. Every third
  non-empty one is handed over as a *view* of the same store positioned in
  another namespace (what `md.ns('algo')` gives an algorithm): converters have
  to transmit all of it, wherever the view stands."""
  from vizier import pyvizier as vz
  md = fill_md(vz.Metadata(), items)
  if items and sum(len(k) for _, k, _ in items) % 3 == 0:
    ns0 = list(items[0][0])
    return md.abs_ns(ns0) if ns0 else md.ns('c09view')
  return md


# ---------------------------------------------------------------------------
# trials
# ---------------------------------------------------------------------------
STATUSES = ['REQUESTED', 'ACTIVE', 'STOPPING', 'COMPLETED', 'INFEASIBLE']


def _pvalue():
  return st.one_of(
      st.sampled_from([0, 0.0, '', 'False', 'True', True, False, 1, -1, 1.5,
                       'a', 'é', MAX_EXACT_INT, -MAX_EXACT_INT, 1e300]),
      st.integers(-MAX_EXACT_INT, MAX_EXACT_INT),
      st.floats(allow_nan=False, allow_infinity=False),
      st.text(max_size=4))


def params_spec(max_size=4):
  names = st.one_of(st.sampled_from(NAMES + HOSTILE), st.text(min_size=1,
                                                              max_size=4))
  return st.lists(st.tuples(names, _pvalue()).map(list), max_size=max_size,
                  unique_by=lambda kv: kv[0])


def _time_us():
  lo = 10 ** 6 * 365 * 86400  # 1971
  hi = 10 ** 6 * 130 * 365 * 86400  # ~2100
  return st.one_of(
      st.integers(lo, hi),
      st.integers(lo // 10 ** 6, hi // 10 ** 6).map(lambda s: s * 10 ** 6),
      # the hours around the 2021 DST transitions of the CET/CEST rule
      st.tuples(st.sampled_from([1616893200, 1635642000]),
                st.integers(-7200, 7200), st.integers(0, 999999)).map(
                    lambda t: (t[0] + t[1]) * 10 ** 6 + t[2]),
      # before the epoch (imported historic data; a local-time zero in a
      # zone ahead of UTC): negative seconds with a fractional part
      st.integers(-10 ** 6 * 50 * 365 * 86400, -1),
      st.sampled_from([-1, -500000, -999999, -1000001, -86400 * 10 ** 6 - 250000]),
      st.sampled_from([1600000000 * 10 ** 6 + 1, 1600000000 * 10 ** 6 + 999999,
                       1700000000 * 10 ** 6 + 500000,
                       1700000000 * 10 ** 6 + 123457]))


@st.composite
def trial_spec(draw):
  status = draw(st.sampled_from(STATUSES))
  t = {
      'id': draw(st.one_of(st.sampled_from([0, 1, 2, 2 ** 31 - 1]),
                           st.integers(0, 10 ** 9))),
      'status': status,
      'params': draw(params_spec()),
      'md': draw(md_spec(3)),
      'worker': draw(st.one_of(st.none(), text())),
      'description': draw(st.one_of(st.none(), text())),
      'links': draw(st.sampled_from([{}, {}, {'log': 'http://x/é'}])),
      'stop_reason': None, 'infeasible_reason': None, 'final': None,
      'measurements': draw(st.lists(meas_spec(2), max_size=2)),
      'created_us': draw(st.one_of(st.none(), _time_us(), _time_us())),
      'completed_us': None,
  }
  if status == 'STOPPING':
    t['stop_reason'] = draw(st.sampled_from(['', 'early stop', 'é']))
  if status in ('COMPLETED', 'INFEASIBLE'):
    if draw(st.integers(0, 3)) == 0:
      t['stop_reason'] = 'was stopping'
    if status == 'COMPLETED' or draw(st.booleans()):
      t['final'] = draw(meas_spec())
    if status == 'INFEASIBLE':
      t['infeasible_reason'] = draw(st.sampled_from(['', '', 'nan loss', 'é:']))
    if t['created_us'] is not None and draw(st.integers(0, 9)) < 7:
      t['completed_us'] = t['created_us'] + draw(st.one_of(
          st.sampled_from([0, 1, 999999, 10 ** 6, 1500000]),
          st.integers(0, 10 ** 12)))
  return t


def avoid_trial(t, avoid, avoided):
  avoid_meas(t['final'], avoid, avoided)
  for m in t['measurements']:
    avoid_meas(m, avoid, avoided)
  if ('infeasible_completion' in avoid and t['status'] == 'INFEASIBLE'
      and t['completed_us'] is not None):
    # without an explicit completion time vz.Trial derives it from the
    # creation time (or leaves it unset), which is also what from_proto does
    t['completed_us'] = None
    avoided.add('infeasible_completion')
  return t


def from_us(us):
  return None if us is None else EPOCH + datetime.timedelta(microseconds=us)


def to_us(dt):
  if dt is None:
    return None
  return (dt - EPOCH) // datetime.timedelta(microseconds=1)


def build_trial(t):
  from vizier import pyvizier as vz
  kw = {}
  if t['status'] == 'REQUESTED':
    kw['is_requested'] = True
  return vz.Trial(
      id=t['id'], parameters={k: v for k, v in t['params']},
      metadata=build_md(t['md']), assigned_worker=t['worker'],
      description=t['description'], related_links=dict(t['links']),
      stopping_reason=t['stop_reason'],
      infeasibility_reason=t['infeasible_reason'],
      final_measurement=(build_meas(t['final']) if t['final'] is not None
                         else None),
      measurements=[build_meas(m) for m in t['measurements']],
      creation_time=from_us(t['created_us']),
      completion_time=from_us(t['completed_us']), **kw)


def suggestion_spec():
  return st.fixed_dictionaries({'params': params_spec(), 'md': md_spec(3)})


def build_suggestion(s):
  from vizier import pyvizier as vz
  return vz.TrialSuggestion(parameters={k: v for k, v in s['params']},
                            metadata=build_md(s['md']))


# ---------------------------------------------------------------------------
# metadata delta
# ---------------------------------------------------------------------------
def delta_spec():
  return st.fixed_dictionaries({
      'study': md_spec(3),
      'trials': st.lists(
          st.tuples(st.one_of(st.sampled_from([0, 1, 2, 2 ** 31 - 1]),
                              st.integers(0, 10 ** 6)),
                    md_spec(3)).map(list),
          max_size=3, unique_by=lambda kv: kv[0]),
  })


def build_delta(d):
  from vizier import pyvizier as vz
  delta = vz.MetadataDelta()
  fill_md(delta.on_study, d['study'])
  for tid, items in d['trials']:
    fill_md(delta.on_trials[tid], items)
  return delta


# ---------------------------------------------------------------------------
# problem statement / study config
# ---------------------------------------------------------------------------
ALGORITHMS = ['ALGORITHM_UNSPECIFIED', 'GP_UCB_PE', 'RANDOM_SEARCH',
              'GRID_SEARCH', 'NSGA2', '', 'my:custom algo é', 'HARNESS']


def problem_spec(max_depth=3):
  return st.fixed_dictionaries({
      'space': space_spec(max_depth=max_depth),
      'metrics': metrics_list(),
      'md': md_spec(3),
  })


def build_problem(p, cls=None, **kw):
  from vizier import pyvizier as vz
  cls = cls or vz.ProblemStatement
  ps = cls(metadata=build_md(p['md']), **kw)
  build_space(p['space'], ps.search_space)
  for m in p['metrics']:
    ps.metric_information.append(build_metric(m))
  return ps


def study_spec():
  return st.fixed_dictionaries({
      'space': space_spec(),
      'metrics': metrics_list(),
      'md': md_spec(3),
      'algorithm': st.one_of(st.sampled_from(ALGORITHMS), st.text(max_size=4)),
      'algorithm_enum': st.booleans(),
      'noise': st.sampled_from(['OBSERVATION_NOISE_UNSPECIFIED', 'LOW',
                                'HIGH']),
      'stopping': st.booleans(),
      'endpoint': st.one_of(st.none(), st.none(),
                            st.sampled_from(['localhost:8888', '', 'é:1'])),
  })


def build_study_config(c):
  from vizier.service import pyvizier as svz
  algo = c['algorithm']
  if c.get('algorithm_enum') and algo in svz.Algorithm.__members__:
    algo = svz.Algorithm[algo]
  kw = dict(algorithm=algo, observation_noise=svz.ObservationNoise[c['noise']],
            pythia_endpoint=c['endpoint'])
  if c['stopping']:
    kw['automated_stopping_config'] = (
        svz.AutomatedStoppingConfig.default_stopping_spec())
  return build_problem(c, cls=svz.StudyConfig, **kw)


# ---------------------------------------------------------------------------
# pythia requests / decisions
# ---------------------------------------------------------------------------
INT32 = 2 ** 31 - 1


def _descriptor():
  return st.fixed_dictionaries({
      'problem': problem_spec(max_depth=2),
      'guid': st.one_of(st.sampled_from(['', 'owners/o/studies/s']), text()),
      'max_trial_id': st.one_of(st.sampled_from([0, 0, 1, INT32]),
                                st.integers(0, 1000)),
  })


def _ckpt_dir():
  return st.one_of(st.none(), st.sampled_from(['', '/tmp/é', 'a:b']))


def pythia_spec():
  sreq = st.fixed_dictionaries({
      'kind': st.just('suggest_request'), 'desc': _descriptor(),
      'count': st.one_of(st.sampled_from([1, 2, INT32]), st.integers(1, 100)),
      'checkpoint_dir': _ckpt_dir()})
  sdec = st.fixed_dictionaries({
      'kind': st.just('suggest_decision'),
      'suggestions': st.lists(suggestion_spec(), max_size=3),
      'delta': delta_spec()})
  ereq = st.fixed_dictionaries({
      'kind': st.just('early_stop_request'), 'desc': _descriptor(),
      'trial_ids': st.one_of(st.none(), st.lists(
          st.one_of(st.sampled_from([0, 1, INT32]), st.integers(0, 1000)),
          max_size=4, unique=True)),
      'checkpoint_dir': _ckpt_dir()})
  decision = st.fixed_dictionaries({
      'id': st.one_of(st.sampled_from([1, INT32]), st.integers(1, 1000)),
      'reason': nonempty_text(), 'should_stop': st.booleans(),
      'predicted': st.one_of(st.none(), meas_spec(2))})
  edec = st.fixed_dictionaries({
      'kind': st.just('early_stop_decisions'),
      'decisions': st.lists(decision, max_size=3), 'delta': delta_spec()})
  return st.one_of(sreq, sdec, ereq, edec)


def avoid_pythia(c, avoid, avoided):
  if c['kind'] in ('suggest_request', 'early_stop_request'):
    avoid_space(c['desc']['problem']['space'], avoid, avoided)
  if c['kind'] == 'early_stop_decisions':
    for d in c['decisions']:
      if d['predicted'] is None and 'no_prediction' in avoid:
        d['predicted'] = {'metrics': [], 'elapsed': 0.0, 'steps': 0,
                          'ckpt': ''}
        avoided.add('no_prediction')
      avoid_meas(d['predicted'], avoid, avoided)
  return c


def build_descriptor(d):
  from vizier import pyvizier as vz
  return vz.StudyDescriptor(build_problem(d['problem']), guid=d['guid'],
                                max_trial_id=d['max_trial_id'])


def build_pythia(c):
  from vizier import pythia
  k = c['kind']
  if k == 'suggest_request':
    return pythia.SuggestRequest(
        study_descriptor=build_descriptor(c['desc']), count=c['count'],
        checkpoint_dir=c['checkpoint_dir'])
  if k == 'suggest_decision':
    return pythia.SuggestDecision(
        [build_suggestion(s) for s in c['suggestions']],
        metadata=build_delta(c['delta']))
  if k == 'early_stop_request':
    return pythia.EarlyStopRequest(
        study_descriptor=build_descriptor(c['desc']),
        trial_ids=c['trial_ids'], checkpoint_dir=c['checkpoint_dir'])
  return pythia.EarlyStopDecisions(
      [pythia.EarlyStopDecision(
          id=d['id'], reason=d['reason'], should_stop=d['should_stop'],
          predicted_final_measurement=(build_meas(d['predicted'])
                                       if d['predicted'] is not None else None))
       for d in c['decisions']],
      metadata=build_delta(c['delta']))


# ---------------------------------------------------------------------------
# wrapping: every generated case carries the list of avoided triggers
# ---------------------------------------------------------------------------
def wrapped(strategy, avoid_fn, avoid):
  avoid = frozenset(avoid)

  def f(case):
    avoided = set()
    case = avoid_fn(case, avoid, avoided)
    return {'v': case, 'avoided': sorted(avoided)}
  return strategy.map(f)
