#!/venv/bin/python
"""atheris (libFuzzer) target for C10: Namespace.encode / decode.

Bytes -> (via FuzzedDataProvider) a namespace tuple over an adversarial
alphabet -> the same oracle as props/c10.check_ns: decode(encode(ns)) == ns,
re-encoding is stable, len preserved. A failure raises, libFuzzer writes the
crashing input to the artifact directory; props/c10.py turns it back into the
tuple (same decoder) for the replay file.
"""
import os
import sys

HERE = os.path.dirname(os.path.abspath(__file__))
sys.path.insert(0, os.path.dirname(HERE))
sys.path.insert(0, os.path.join(os.path.dirname(HERE), '.deps'))

ALPHA = ['a', ':', '\\', 'é', ' ', 'b', '', '::', '\\:', ':\\', '\\\\']


def decode_input(data):
  """bytes -> namespace tuple (also used by props/c10.py on crash files)."""
  ns = []
  i = 0
  n = data[0] % 6 if data else 0
  i = 1
  for _ in range(n):
    if i >= len(data):
      break
    ln = data[i] % 5
    i += 1
    comp = ''
    for _ in range(ln):
      if i >= len(data):
        break
      comp += ALPHA[data[i] % len(ALPHA)]
      i += 1
    ns.append(comp)
  return tuple(ns)


def main():
  import atheris
  from harness import boot
  boot.init()
  with atheris.instrument_imports(include=['vizier._src.pyvizier.shared']):
    import importlib
    from vizier._src.pyvizier.shared import common
    importlib.reload(common)

  def test_one(data):
    ns = decode_input(data)
    n = common.Namespace(ns)
    enc = n.encode()
    dec = common.Namespace.decode(enc)
    if tuple(dec) != ns:
      raise AssertionError('roundtrip %r -> %r -> %r' % (ns, enc, tuple(dec)))
    if dec.encode() != enc:
      raise AssertionError('reencode %r' % (ns,))
    if len(n) != len(ns):
      raise AssertionError('len %r' % (ns,))

  atheris.Setup(sys.argv, test_one)
  atheris.Fuzz()


if __name__ == '__main__':
  main()
