#!/bin/sh
# Offline setup: everything comes from files on disk.
set -e
cd "$(dirname "$0")"
if ! /venv/bin/python -c "import hypothesis" 2>/dev/null; then
  /venv/bin/pip install --no-index --find-links /opt/veriftools/wheels hypothesis
fi
# atheris (coverage-guided fuzzing, C10 ns_fuzz family): cp312 wheel into .deps
if [ ! -d .deps/atheris ]; then
  /venv/bin/pip install -q --no-index --find-links /opt/veriftools/wheels --target .deps atheris || echo "atheris not installable: ns_fuzz family will report inconclusive"
fi
mkdir -p evidence replays
/venv/bin/python - <<'PY'
import sys
sys.path.insert(0, '.')
from harness import boot
boot.init()
from vizier._src.service import vizier_service  # noqa: F401
print('setup ok: vizier importable through harness/boot.py')
PY
